"""E-DESC: decode the FileDescriptorProto bytes literal embedded in *_pb2.py.

The literal is located with ``ast`` (the argument of ``AddSerializedFile``) and
evaluated with ``ast.literal_eval``; the protobuf wire format is decoded by the
small reader below.  Nothing is imported or executed.
"""

from __future__ import annotations

import ast
from dataclasses import dataclass, field

from .src import AnalysisError

# FieldDescriptorProto.Type
TYPE_NAMES = {
    1: "double", 2: "float", 3: "int64", 4: "uint64", 5: "int32", 6: "fixed64",
    7: "fixed32", 8: "bool", 9: "string", 10: "group", 11: "message", 12: "bytes",
    13: "uint32", 14: "enum", 15: "sfixed32", 16: "sfixed64", 17: "sint32", 18: "sint64",
}
LABELS = {1: "optional", 2: "required", 3: "repeated"}


def _varint(b: bytes, i: int) -> tuple[int, int]:
    shift = 0
    val = 0
    while True:
        if i >= len(b):
            raise AnalysisError("descriptor literal truncated (varint)")
        c = b[i]
        i += 1
        val |= (c & 0x7F) << shift
        if not c & 0x80:
            return val, i
        shift += 7


def _fields(b: bytes) -> list[tuple[int, int, object]]:
    out = []
    i = 0
    while i < len(b):
        key, i = _varint(b, i)
        num, wt = key >> 3, key & 7
        if wt == 0:
            v, i = _varint(b, i)
            out.append((num, wt, v))
        elif wt == 2:
            ln, i = _varint(b, i)
            if i + ln > len(b):
                raise AnalysisError("descriptor literal truncated (bytes)")
            out.append((num, wt, b[i : i + ln]))
            i += ln
        elif wt == 5:
            out.append((num, wt, b[i : i + 4]))
            i += 4
        elif wt == 1:
            out.append((num, wt, b[i : i + 8]))
            i += 8
        else:
            raise AnalysisError(f"descriptor literal: unsupported wire type {wt}")
    return out


@dataclass
class DField:
    name: str = ""
    number: int = 0
    label: str = "optional"
    type: str = ""
    type_name: str = ""  # for message / enum (leading dot stripped)
    deprecated: bool = False

    @property
    def is_repeated(self) -> bool:
        return self.label == "repeated"


@dataclass
class DMessage:
    name: str = ""
    fields: list[DField] = field(default_factory=list)
    id: int | None = None
    source: int | None = None  # 0 BOTH, 1 SERVER, 2 CLIENT (None = option absent -> default BOTH)
    raw_options: dict[int, object] = field(default_factory=dict)
    nested: int = 0

    def field_map(self) -> dict[str, DField]:
        return {f.name: f for f in self.fields}

    def field_names(self) -> list[str]:
        return [f.name for f in self.fields]


@dataclass
class DEnum:
    name: str = ""
    values: list[tuple[str, int]] = field(default_factory=list)


@dataclass
class DFile:
    name: str = ""
    deps: list[str] = field(default_factory=list)
    messages: dict[str, DMessage] = field(default_factory=dict)
    enums: dict[str, DEnum] = field(default_factory=dict)
    extensions: list[DField] = field(default_factory=list)
    syntax: str = "proto2"
    services: list[tuple[str, str, str]] = field(default_factory=list)


def _decode_field(b: bytes) -> DField:
    f = DField()
    for num, wt, v in _fields(b):
        if num == 1:
            f.name = v.decode()  # type: ignore[union-attr]
        elif num == 3:
            f.number = int(v)  # type: ignore[arg-type]
        elif num == 4:
            f.label = LABELS.get(int(v), str(v))  # type: ignore[arg-type]
        elif num == 5:
            f.type = TYPE_NAMES.get(int(v), str(v))  # type: ignore[arg-type]
        elif num == 6:
            f.type_name = v.decode().lstrip(".")  # type: ignore[union-attr]
        elif num == 8:
            for n2, _, v2 in _fields(v):  # type: ignore[arg-type]
                if n2 == 3:
                    f.deprecated = bool(v2)
    return f


def _decode_message(b: bytes) -> DMessage:
    m = DMessage()
    for num, wt, v in _fields(b):
        if num == 1:
            m.name = v.decode()  # type: ignore[union-attr]
        elif num == 2:
            m.fields.append(_decode_field(v))  # type: ignore[arg-type]
        elif num in (3, 4):
            m.nested += 1
        elif num == 7:
            for n2, _, v2 in _fields(v):  # type: ignore[arg-type]
                m.raw_options[n2] = v2
                if n2 == 1036:
                    m.id = int(v2)  # type: ignore[arg-type]
                elif n2 == 1037:
                    m.source = int(v2)  # type: ignore[arg-type]
    return m


def _decode_enum(b: bytes) -> DEnum:
    e = DEnum()
    for num, wt, v in _fields(b):
        if num == 1:
            e.name = v.decode()  # type: ignore[union-attr]
        elif num == 2:
            name, number = "", 0
            for n2, _, v2 in _fields(v):  # type: ignore[arg-type]
                if n2 == 1:
                    name = v2.decode()  # type: ignore[union-attr]
                elif n2 == 2:
                    number = int(v2)  # type: ignore[arg-type]
                    if number >= 1 << 63:
                        number -= 1 << 64
            e.values.append((name, number))
    return e


def decode_file_descriptor(b: bytes) -> DFile:
    f = DFile()
    for num, wt, v in _fields(b):
        if num == 1:
            f.name = v.decode()  # type: ignore[union-attr]
        elif num == 3:
            f.deps.append(v.decode())  # type: ignore[union-attr]
        elif num == 4:
            m = _decode_message(v)  # type: ignore[arg-type]
            f.messages[m.name] = m
        elif num == 5:
            e = _decode_enum(v)  # type: ignore[arg-type]
            f.enums[e.name] = e
        elif num == 6:
            svc_name = ""
            for n2, _, v2 in _fields(v):  # type: ignore[arg-type]
                if n2 == 1:
                    svc_name = v2.decode()  # type: ignore[union-attr]
                elif n2 == 2:
                    mn = inp = outp = ""
                    for n3, _, v3 in _fields(v2):  # type: ignore[arg-type]
                        if n3 == 1:
                            mn = v3.decode()  # type: ignore[union-attr]
                        elif n3 == 2:
                            inp = v3.decode().lstrip(".")  # type: ignore[union-attr]
                        elif n3 == 3:
                            outp = v3.decode().lstrip(".")  # type: ignore[union-attr]
                    f.services.append((mn, inp, outp))
        elif num == 7:
            f.extensions.append(_decode_field(v))  # type: ignore[arg-type]
        elif num == 12:
            f.syntax = v.decode()  # type: ignore[union-attr]
    return f


def descriptor_literal(source: str, fname: str) -> bytes:
    tree = ast.parse(source, filename=fname)
    found: list[bytes] = []
    for n in ast.walk(tree):
        if (
            isinstance(n, ast.Call)
            and isinstance(n.func, ast.Attribute)
            and n.func.attr == "AddSerializedFile"
            and n.args
            and isinstance(n.args[0], ast.Constant)
            and isinstance(n.args[0].value, bytes)
        ):
            found.append(n.args[0].value)
    if len(found) != 1:
        raise AnalysisError(f"{fname}: expected exactly one AddSerializedFile(b'...') literal, found {len(found)}")
    return found[0]


def load_descriptor(source: str, fname: str) -> DFile:
    return decode_file_descriptor(descriptor_literal(source, fname))
