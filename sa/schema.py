"""Wire schema as data: api.proto text, api_options.proto text, descriptor literals."""

from __future__ import annotations

from dataclasses import dataclass

from .desc import DFile, load_descriptor
from .proto import PFile, parse_proto
from .src import Repo

SOURCE_NAMES = {0: "SOURCE_BOTH", 1: "SOURCE_SERVER", 2: "SOURCE_CLIENT", None: "SOURCE_BOTH"}


@dataclass
class Schema:
    proto: PFile
    options_proto: PFile
    desc: DFile
    options_desc: DFile

    def source_of(self, msg: str) -> str:
        m = self.desc.messages[msg]
        return SOURCE_NAMES[m.source]

    def id_of(self, msg: str) -> int | None:
        return self.desc.messages[msg].id


def load_schema(repo: Repo) -> Schema:
    proto = parse_proto(repo.read_text("api.proto"), "api.proto")
    oproto = parse_proto(repo.read_text("api_options.proto"), "api_options.proto")
    desc = load_descriptor(repo.read_text("api_pb2.py"), "api_pb2.py")
    odesc = load_descriptor(repo.read_text("api_options_pb2.py"), "api_options_pb2.py")
    return Schema(proto, oproto, desc, odesc)
