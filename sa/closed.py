"""E-EFF / E-DF instance: interprocedural MUST analysis of the fact
"the connection is known not to be CLOSED since the last point where control
could have been lost" (DESIGN.md section 2, rules C05.R4, C08.R3, C08.R6).

Fact lattice: OK (validated) > reason strings (why it is not validated).
Summaries per function (exit fact for entry OK / entry not-OK), computed to a
fixpoint over the resolved call graph; entry facts by a second fixpoint from the
entry points (public API, registered callbacks) down.
"""

from __future__ import annotations

import ast
import importlib.util
from dataclasses import dataclass, field
from pathlib import Path
from typing import Any

from .astutil import attr_writes, is_none
from .cfg import BOTTOM, CFG, Node, cfg_of, forward, walk_own
from .report import Ctx
from .resolve import Callees, Resolver
from .src import AnalysisError, ClassInfo, Func, norm, own_nodes, short
from .sym import EnumVal

OK = "OK"
ENTRY = "<entry>"  # placeholder: "whatever reason the caller had"


def join(a: str, b: str) -> str:
    if a == OK:
        return b
    if b == OK:
        return a
    return min(a, b)


@dataclass
class Roles:
    conn: ClassInfo
    state_attr: str
    setter: Func
    closer: Func
    closed_const: str  # member name of the state enum meaning closed
    state_enum: str
    setter_calls: list[tuple[Func, ast.Call, str]] = field(default_factory=list)  # (where, call, member)
    inventory: dict[str, list[tuple[Func, ast.AST]]] = field(default_factory=dict)  # attr -> release sites
    timer_callbacks: dict[str, str] = field(default_factory=dict)  # callback func key -> handle attr
    dispatcher: Func | None = None
    handler_table: str = ""
    closer_sets_closed: bool = True


def resolver(ctx: Ctx) -> Resolver:
    return ctx.service("resolver", lambda: Resolver(ctx.repo, ctx.sym))


def state_member(ctx: Ctx, fn: Func, e: ast.expr, roles_enum: str) -> str | None:
    v = ctx.sym.eval(e, fn.module.name)
    if isinstance(v, EnumVal) and v.cls == roles_enum:
        return v.name
    return None


def find_roles(ctx: Ctx) -> Roles:
    def make() -> Roles:
        repo = ctx.repo
        conn = repo.cls("APIConnection")
        state_attr = "connection_state"
        writers = []
        for m in conn.methods.values():
            for st, tgt, val in attr_writes(m, state_attr):
                if norm(tgt.value) == "self" and m.name != "__init__":
                    writers.append(m)
        writers = list(dict.fromkeys(writers))
        setters = [m for m in writers if any(isinstance(v, ast.Name) and v.id in m.param_names() for _, _, v in attr_writes(m, state_attr))]
        if len(setters) != 1:
            raise AnalysisError(f"state-setter role is not unique: {[m.key for m in setters]} (writers of {state_attr}: {[m.key for m in writers]})")
        setter = setters[0]
        res = resolver(ctx)
        enum = "ConnectionState"
        calls: list[tuple[Func, ast.Call, str]] = []
        for fn in repo.all_funcs():
            for n in own_nodes(fn.node):
                if isinstance(n, ast.Call) and setter in res.callees(fn, n).funcs:
                    args = res.bind_args(setter, n)
                    p = [x for x in setter.param_names() if x != "self"][0]
                    mem = state_member(ctx, fn, args[p], enum) if p in args else None
                    calls.append((fn, n, mem or f"?{norm(args.get(p))}"))
        closers = [fn for fn, _, mem in calls if mem == "CLOSED"]
        closers = list(dict.fromkeys(closers))
        closer_ok = True
        if not closers and "_cleanup" in conn.methods:
            # nothing sets CLOSED any more: keep the analysis going with the function that
            # releases the resources, C05.R5 reports the missing state write as a violation
            closers = [conn.methods["_cleanup"]]
            closer_ok = False
        if len(closers) != 1:
            raise AnalysisError(f"closer role is not unique: {[c.key for c in closers]}")
        roles = Roles(conn, state_attr, setter, closers[0], "CLOSED", enum, calls)
        roles.closer_sets_closed = closer_ok
        # resource inventory: attributes the closer (or a self-method it calls) resets to None
        seen = {roles.closer.key}
        todo = [roles.closer]
        while todo:
            f = todo.pop()
            for st, tgt, val in attr_writes(f):
                if norm(tgt.value) == "self" and is_none(val):
                    roles.inventory.setdefault(tgt.attr, []).append((f, st))
            for n in own_nodes(f.node):
                if isinstance(n, ast.Call):
                    for c in res.callees(f, n).funcs:
                        if c.cls is not None and c.cls.name == conn.name and c.key not in seen and c is not setter:
                            seen.add(c.key)
                            todo.append(c)
        # timer callbacks armed into inventory attributes
        for m in conn.methods.values():
            for st, tgt, val in attr_writes(m):
                if norm(tgt.value) == "self" and tgt.attr in roles.inventory and isinstance(val, ast.Call) and isinstance(val.func, ast.Attribute) and val.func.attr in ("call_at", "call_later") and len(val.args) >= 2:
                    cbv = res._callable_value(m, val.args[1])
                    if cbv is not None:
                        for cb in cbv.funcs:
                            roles.timer_callbacks[cb.key] = tgt.attr
        # dispatcher: the connection method that iterates (a copy of) a handler table and calls each element
        for m in conn.methods.values():
            for n in own_nodes(m.node):
                if isinstance(n, ast.For) and isinstance(n.target, ast.Name):
                    tv = n.target.id
                    if any(isinstance(x, ast.Call) and isinstance(x.func, ast.Name) and x.func.id == tv for b in n.body for x in ast.walk(b)):
                        if "_message_handlers" in "".join(norm(x) for x in own_nodes(m.node) if isinstance(x, ast.Attribute)):
                            roles.dispatcher = m
                            roles.handler_table = "_message_handlers"
        if roles.dispatcher is None:
            raise AnalysisError("dispatcher role (loop calling every element of the handler table) not found in APIConnection")
        return roles

    return ctx.service("roles", make)


# --------------------------------------------------- non-suspending async CMs
def cm_is_sync(ctx: Ctx, fn: Func, with_stmt: ast.AsyncWith) -> tuple[bool, str]:
    """M1: an async context manager whose __aenter__/__aexit__ source is available
    and contains no suspension point is not a suspension point."""
    cache = ctx.service("cm_cache", dict)
    ok_all = True
    why = []
    for it in with_stmt.items:
        e = it.context_expr
        name = None
        if isinstance(e, ast.Call) and isinstance(e.func, ast.Name):
            b = ctx.sym.table(fn.module.name).get(e.func.id)
            if b and b[0] == "extimport":
                name = b[1]
        if name is None:
            ok_all = False
            why.append(f"{norm(e)[:40]}: not a call of an imported factory")
            continue
        if name not in cache:
            cache[name] = _check_cm_source(ctx, name)
        good, msg = cache[name]
        ok_all = ok_all and good
        why.append(msg)
    return ok_all, "; ".join(why)


def _check_cm_source(ctx: Ctx, dotted: str) -> tuple[bool, str]:
    modname, _, attr = dotted.rpartition(".")
    try:
        spec = importlib.util.find_spec(modname)
    except Exception:
        spec = None
    if spec is None or not spec.origin or not spec.origin.endswith(".py"):
        return False, f"{dotted}: source not available"
    src = Path(spec.origin).read_text()
    import hashlib

    ctx.repo.consulted[f"<installed>{spec.origin}"] = hashlib.sha256(src.encode()).hexdigest()
    tree = ast.parse(src)
    # resolve attr -> class (direct class, or `attr = Class` alias, possibly under if/else)
    classes = {n.name: n for n in ast.walk(tree) if isinstance(n, ast.ClassDef)}
    target = None
    if attr in classes:
        target = classes[attr]
    else:
        for n in ast.walk(tree):
            if isinstance(n, ast.Assign) and any(isinstance(t, ast.Name) and t.id == attr for t in n.targets) and isinstance(n.value, ast.Name) and n.value.id in classes:
                target = classes[n.value.id]
    if target is None:
        return False, f"{dotted}: factory does not denote a class in its source"
    for mname in ("__aenter__", "__aexit__"):
        m = next((x for x in target.body if isinstance(x, ast.AsyncFunctionDef) and x.name == mname), None)
        if m is None:
            return False, f"{dotted}: {mname} not found"
        for x in ast.walk(m):
            if isinstance(x, (ast.Await, ast.AsyncWith, ast.AsyncFor)):
                return False, f"{dotted}: {mname} contains a suspension point"
    return True, f"{dotted}: __aenter__/__aexit__ parsed from {spec.origin}, no suspension point"


# ------------------------------------------------------------- the analysis
class ClosedFlow:
    def __init__(self, ctx: Ctx) -> None:
        self.ctx = ctx
        self.repo = ctx.repo
        self.res = resolver(ctx)
        self.roles = find_roles(ctx)
        self.funcs = [f for f in self.repo.all_funcs()]
        self.summary: dict[str, tuple[str | None, str | None]] = {}  # key -> (exit|OK-entry, exit|notOK-entry); None = no normal exit
        self.entry: dict[str, str] = {}
        self.site_facts: dict[tuple[str, int], str] = {}
        self._callsites_cache: dict[str, dict[int, Callees]] = {}
        self.entry_points: dict[str, str] = {}
        self.solve()

    # ---- classification of one evaluated sub-expression -------------------
    def callees(self, fn: Func, call: ast.Call) -> Callees:
        c = self._callsites_cache.setdefault(fn.key, {})
        if id(call) not in c:
            c[id(call)] = self.res.callees(fn, call)
        return c[id(call)]

    def is_conn_expr(self, fn: Func, e: ast.expr) -> bool:
        return self.roles.conn.name in self.res.expr_types(fn, e)

    def step(self, fn: Func, n: Node, V: str, record: dict | None = None) -> tuple[str, bool]:
        """Fact after executing node n normally; also whether an exception edge
        out of n may carry a changed fact (any call/await inside)."""
        roles = self.roles
        risky = False
        if n.kind in ("with-enter", "with-exit") and n.is_async:
            good, why = cm_is_sync(self.ctx, fn, n.ast)  # type: ignore[arg-type]
            if not good:
                V = join(V, f"suspension: {n.text(60)} in {fn.key}")
                risky = True
        if n.kind == "for" and n.is_async:
            return join(V, f"suspension: async for in {fn.key}"), True
        if n.ast is None or n.kind in ("handler", "dispatch", "join", "with-exit", "for"):
            return V, risky
        parents: dict[ast.AST, ast.AST] = {}
        subs = list(walk_own(n.ast))
        for x in subs:
            for c in ast.iter_child_nodes(x):
                parents[c] = x
        for x in subs:
            if isinstance(x, ast.Await):
                v = x.value
                if isinstance(v, ast.Call):
                    cs = self.callees(fn, v)
                    if cs.funcs and all(f.is_async for f in cs.funcs) and cs.kind == "pkg":
                        continue  # a call, not a suspension (M1); effect applied at the Call
                V = join(V, f"suspension: await {short(v, 50)} in {fn.key}")
                risky = True
            elif isinstance(x, ast.Call):
                if record is not None:
                    record[id(x)] = V
                cs = self.callees(fn, x)
                if roles.setter in cs.funcs:
                    args = self.res.bind_args(roles.setter, x)
                    p = [q for q in roles.setter.param_names() if q != "self"][0]
                    mem = state_member(self.ctx, fn, args[p], roles.state_enum) if p in args else None
                    if mem == roles.closed_const:
                        V = join(V, f"closed by {fn.key}")
                    elif mem is not None:
                        V = OK
                    else:
                        V = join(V, f"state set to non-constant in {fn.key}")
                    risky = True
                    continue
                if cs.kind in ("pkg", "ctor") and cs.funcs:
                    risky = True
                    awaited = isinstance(parents.get(x), ast.Await)
                    outs = []
                    for f in cs.funcs:
                        if f.is_async and not awaited:
                            # coroutine object created, nothing runs yet - unless handed to an eager task
                            par = parents.get(x)
                            if isinstance(par, ast.Call) and norm(par.func).split(".")[-1] in ("create_eager_task", "Task", "ensure_future", "create_task"):
                                outs.append(join(V, f"task started: {f.key} may run and close"))
                            else:
                                outs.append(V)
                            continue
                        s = self.summary.get(f.key, (OK, OK))
                        o = s[0] if V == OK else s[1]
                        if o is None:
                            continue  # never returns normally
                        if o == ENTRY:
                            o = V
                        outs.append(o)
                    if outs:
                        nv = outs[0]
                        for o in outs[1:]:
                            nv = join(nv, o)
                        V = nv
                    continue
                if cs.kind == "lib" or (cs.kind == "ctor" and not cs.funcs):
                    continue
                risky = True
                V = join(V, f"call of unknown/user callable {short(x.func, 40)} in {fn.key} may close and return")
        return V, risky

    def refine(self, fn: Func, n: Node, label: str, V: Any) -> Any:
        """Guard refinement on the out-edges of a condition atom."""
        if n.kind != "cond" or label not in ("true", "false") or n.ast is None:
            return V
        t = n.ast
        roles = self.roles
        truth = label == "true"
        if isinstance(t, ast.NamedExpr):
            t = t.value
        if isinstance(t, ast.Compare) and len(t.ops) == 1:
            l, r = t.left, t.comparators[0]
            for a, b in ((l, r), (r, l)):
                if isinstance(a, ast.Attribute) and a.attr == roles.state_attr and self.is_conn_expr(fn, a.value):
                    mem = state_member(self.ctx, fn, b, roles.state_enum)
                    if mem is None:
                        continue
                    eq = isinstance(t.ops[0], (ast.Is, ast.Eq))
                    ne = isinstance(t.ops[0], (ast.IsNot, ast.NotEq))
                    if not (eq or ne):
                        continue
                    equal = truth if eq else not truth
                    if mem == roles.closed_const:
                        return f"state tested CLOSED in {fn.key}" if equal else OK
                    return OK if equal else V
        if isinstance(t, ast.Attribute) and t.attr in ("is_connected", "_handshake_complete") and self.is_conn_expr(fn, t.value):
            return OK if truth else V
        return V

    def run_func(self, fn: Func, entry: str, record: dict | None = None) -> tuple[dict[Node, str], CFG]:
        g = cfg_of(self.ctx, fn)

        def transfer(n: Node, V: str) -> dict:
            out, risky = self.step(fn, n, V, record)
            d = {"*": out}
            # after an exception out of a package call / await nothing is known any more
            d["exc"] = join(V, f"exception out of {n.text(40)} in {fn.key}") if risky else V
            d["unhandled"] = V
            d["handler"] = V
            return d

        IN = forward(g, entry, transfer, join, edge=lambda a, l, b, f: self.refine(fn, a, l, f))
        return IN, g

    def exit_fact(self, fn: Func, entry: str) -> str | None:
        IN, g = self.run_func(fn, entry)
        return IN.get(g.exit)

    # ---- fixpoints ---------------------------------------------------------
    def solve(self) -> None:
        for f in self.funcs:
            self.summary[f.key] = (OK, OK)
        for rnd in range(30):
            changed = False
            for f in self.funcs:
                a = self.exit_fact(f, OK)
                b = self.exit_fact(f, ENTRY)
                if (a, b) != self.summary[f.key]:
                    self.summary[f.key] = (a, b)
                    changed = True
            if not changed:
                break
        else:
            raise AnalysisError("summary fixpoint did not converge")
        self._entry_points()
        for f in self.funcs:
            self.entry[f.key] = self.entry_points.get(f.key, OK)
        for rnd in range(30):
            changed = False
            for f in self.funcs:
                rec: dict[int, str] = {}
                self.run_func(f, self.entry[f.key], rec)
                parent_of = {c: p for p in own_nodes(f.node) for c in ast.iter_child_nodes(p)}
                for n in own_nodes(f.node):
                    if isinstance(n, ast.Call) and id(n) in rec:
                        cs = self.callees(f, n)
                        if cs.kind in ("pkg", "ctor"):
                            for c in cs.funcs:
                                if c is self.roles.setter:
                                    continue
                                at = rec[id(n)] if rec[id(n)] != ENTRY else self.entry[f.key]
                                if c.is_async and not isinstance(parent_of.get(n), ast.Await):
                                    at = join(at, f"coroutine {c.key} created in {f.key} runs later")
                                j = join(self.entry[c.key], at)
                                if j != self.entry[c.key]:
                                    self.entry[c.key] = j
                                    changed = True
            if not changed:
                break
        else:
            raise AnalysisError("entry-fact fixpoint did not converge")

    def _entry_points(self) -> None:
        """Functions the loop / the user / foreign code may invoke directly."""
        roles = self.roles
        referenced: dict[str, str] = {}
        for f in self.funcs:
            call_funcs = {id(n.func) for n in own_nodes(f.node) if isinstance(n, ast.Call)}
            for n in own_nodes(f.node):
                if isinstance(n, (ast.Attribute, ast.Name)) and isinstance(getattr(n, "ctx", None), ast.Load) and id(n) not in call_funcs:
                    cv = None
                    if isinstance(n, ast.Attribute) and isinstance(n.value, ast.Name) and n.value.id in ("self", "cls"):
                        cv = self.res._callable_value(f, n)
                    elif isinstance(n, ast.Name):
                        v = self.ctx.sym.resolve_name(f.module.name, n.id)
                        if getattr(v, "kind", None) == "func":
                            cv = self.res._callable_value(f, n)
                    if cv is not None:
                        for c in cv.funcs:
                            referenced.setdefault(c.key, f"referenced as a value in {f.key}")
        for f in self.funcs:
            nm = f.name
            if f.key in roles.timer_callbacks:
                # can only start while the handle is not cancelled, i.e. not closed (handle cancelled by the closer)
                continue
            if f.key in referenced:
                self.entry_points[f.key] = f"entry: {f.key} is a registered callback ({referenced[f.key]})"
            elif not nm.startswith("_") or (nm.startswith("__") and nm.endswith("__")):
                self.entry_points[f.key] = f"entry: public function {f.key} may be called at any time"
            elif f.parent is not None:
                self.entry_points[f.key] = f"entry: closure {f.key}"

    # ---- queries -------------------------------------------------------------
    def fact_at(self, fn: Func, target: ast.AST) -> str:
        """Fact immediately before the evaluation of sub-expression / statement *target* in fn."""
        IN, g = self.run_func(fn, self.entry[fn.key])
        worst = OK
        found = False
        for n in g.nodes:
            if n not in IN or n.ast is None:
                continue
            if n.ast is target:
                found = True
                worst = join(worst, IN[n])
                continue
            if n.kind in ("handler", "dispatch", "join", "with-exit", "for"):
                continue
            subs = list(walk_own(n.ast))
            if any(x is target for x in subs):
                found = True
                rec: dict[int, str] = {}
                # replay the node up to the target
                V = IN[n]
                if isinstance(target, ast.Call):
                    self.step(fn, n, V, rec)
                    worst = join(worst, rec.get(id(target), V))
                else:
                    worst = join(worst, V)
        if not found:
            return "site unreachable"
        if worst == ENTRY:
            worst = self.entry[fn.key]
        return worst
