import asyncio, socket, sys
from unittest.mock import MagicMock, patch, create_autospec
from aioesphomeapi.connection import APIConnection, ConnectionParams
from aioesphomeapi.client import APIClient
from aioesphomeapi.zeroconf import ZeroconfManager
from aioesphomeapi.host_resolver import AddrInfo, IPv4Sockaddr
from aioesphomeapi._frame_helper.plain_text import _varuint_to_bytes
from aioesphomeapi.api_pb2 import HelloResponse, ConnectResponse, DisconnectRequest, SensorStateResponse, VoiceAssistantSetConfiguration
from aioesphomeapi.core import MESSAGE_TYPE_TO_PROTO, APIConnectionError
from aioesphomeapi.model import LockState
import aioesphomeapi
print("using", aioesphomeapi.__file__)
P2T = {v: k for k, v in MESSAGE_TYPE_TO_PROTO.items()}
def frame(msg):
    d = msg.SerializeToString()
    return b"\0" + _varuint_to_bytes(len(d)) + _varuint_to_bytes(P2T[type(msg)]) + d
def mk():
    s = create_autospec(socket.socket, spec_set=True, instance=True)
    s.type = socket.SOCK_STREAM; s.fileno.return_value = 1; s.getpeername.return_value = ("1.2.3.4", 6053)
    return s
def params():
    return ConnectionParams(addresses=["1.2.3.4"], port=6053, password=None, client_info="t", keepalive=20.0,
        zeroconf_manager=ZeroconfManager(), noise_psk=None, expected_name=None)
async def main():
    loop = asyncio.get_running_loop()
    stops = []
    conn = APIConnection(params(), lambda exp: stops.append(exp), False, None)
    transport = MagicMock(); holder = {}
    async def create_connection(factory, sock=None):
        p = factory(); p.connection_made(transport); holder["p"] = p; return transport, p
    with patch("aioesphomeapi.connection.aiohappyeyeballs.start_connection", return_value=mk()), patch.object(loop, "create_connection", create_connection):
        await conn.start_connection()
        task = asyncio.ensure_future(conn.finish_connection(login=True))
        await asyncio.sleep(0); await asyncio.sleep(0)
        got = []
        conn.add_message_callback(got.append, (SensorStateResponse,))
        holder["p"].data_received(frame(HelloResponse(api_version_major=1, api_version_minor=10, name="x")) + frame(ConnectResponse()) + frame(DisconnectRequest()) + frame(SensorStateResponse(key=1, state=2.0)))
        try:
            await task; print("D1 finish_connection returned normally")
        except Exception as e:
            print("D1 finish_connection raised", type(e).__name__, "|", e)
        print("D1 final state:", conn.connection_state, "is_connected", conn.is_connected, "ping_timer", conn._ping_timer, "stops", stops)
        print("D2 trailing delivered:", len(got))
    c0 = APIConnection(params(), None, False, None); got0 = []
    c0.add_message_callback(got0.append, (VoiceAssistantSetConfiguration,)); c0.process_packet(0, b"")
    print("D3 type 0 delivered:", len(got0))
    conn2 = APIConnection(params(), None, False, None)
    fut = loop.create_future()
    async def fake_sc(*a, **k): return await fut
    with patch("aioesphomeapi.connection.aiohappyeyeballs.start_connection", fake_sc), \
         patch("aioesphomeapi.host_resolver.async_resolve_host", return_value=[AddrInfo(socket.AF_INET, socket.SOCK_STREAM, socket.IPPROTO_TCP, IPv4Sockaddr("1.2.3.4", 6053))]):
        task = asyncio.ensure_future(conn2.start_connection())
        for _ in range(5): await asyncio.sleep(0)
        s = mk(); fut.set_result(s); conn2.force_disconnect()
        try:
            await task; print("D1b start_connection returned normally")
        except Exception as e:
            print("D1b start_connection raised", type(e).__name__, "|", e)
        print("D1b final state:", conn2.connection_state, "sock.close calls", s.close.call_count)
    print("D4", LockState.convert(2), [m for m in LockState.__members__])
    with patch("aioesphomeapi.connection.aiohappyeyeballs.start_connection", side_effect=lambda *a, **k: mk()):
        for force in (False, True):
            cli = APIClient("1.2.3.4", 6053, None)
            await cli.start_connection(); await cli.disconnect(force=force)
            try:
                await cli.start_connection(); print("D5 force=%s second start accepted" % force)
            except APIConnectionError as e:
                print("D5 force=%s REFUSED" % force, e)
asyncio.run(main())
