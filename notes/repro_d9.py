"""D9: one APIConnection accepts two overlapping start_connection() (and finish_connection()) calls."""
import asyncio, sys
from unittest.mock import patch, MagicMock
import socket
from aioesphomeapi import APIClient
import aioesphomeapi.connection as c
from aioesphomeapi.connection import APIConnection, ConnectionParams
from aioesphomeapi.zeroconf import ZeroconfManager

async def main():
    params = ConnectionParams(addresses=["127.0.0.1"], port=6053, password=None, client_info="t", keepalive=20.0, zeroconf_manager=ZeroconfManager(), noise_psk=None, expected_name=None)
    conn = APIConnection(params, lambda expected: None, False, None)
    attempts = 0
    socks = []
    async def fake_start(*a, **k):
        nonlocal attempts
        attempts += 1
        await asyncio.sleep(0.05)
        s = MagicMock(spec=socket.socket)
        s.getpeername.return_value = ("127.0.0.1", 6053)
        socks.append(s)
        return s
    res = []
    with patch.object(c.aiohappyeyeballs, "start_connection", fake_start):
        t1 = asyncio.create_task(conn.start_connection())
        await asyncio.sleep(0.01)
        t2 = asyncio.create_task(conn.start_connection())
        for t in (t1, t2):
            try:
                await t
                res.append("accepted")
            except Exception as e:
                res.append(f"refused:{type(e).__name__}")
    print("second overlapping start_connection():", res, "TCP attempts:", attempts)
    leaked = [s for s in socks if s is not conn._socket and not s.close.called]
    print("sockets opened:", len(socks), "leaked (neither installed nor closed):", len(leaked))
    ok = res[1].startswith("refused") and attempts == 1
    conn.force_disconnect()
    print("RESULT", "ok" if ok else "DEFECT: one connection object ran two connect attempts")
    return 0 if ok else 1
sys.exit(asyncio.run(main()))
