import asyncio, sys
from unittest.mock import patch
from aioesphomeapi import APIClient
import aioesphomeapi.connection as c

async def main():
    cli = APIClient("127.0.0.1", 6053, None)
    calls = 0
    async def hang(*a, **k):
        nonlocal calls
        calls += 1
        await asyncio.sleep(3600)
    with patch.object(c.aiohappyeyeballs, "start_connection", hang):
        t1 = asyncio.create_task(cli.start_connection())
        await asyncio.sleep(0.01)
        first = cli._connection
        await cli.disconnect(force=True)
        t2 = asyncio.create_task(cli.start_connection())
        await asyncio.sleep(0.01)
        second = cli._connection
        print("t1 done:", t1.done(), type(t1.exception()).__name__ if t1.done() else None)
        print("attempt 2 in flight:", not t2.done(), "installed connection:", second)
        ok = second is not None and second is not first
        t2.cancel()
        try:
            await t2
        except BaseException as e:
            print("t2 ended:", type(e).__name__)
        print("RESULT", "ok" if ok else "DEFECT: the failed first attempt wiped the second attempt's connection")
        return 0 if ok else 1
sys.exit(asyncio.run(main()))
