#!/usr/bin/env python3
"""Regenerate /verif/MANIFEST.json from the claim table below (keeps it valid and consistent)."""
import json
import sys
from pathlib import Path

VERIF = Path(__file__).resolve().parent.parent
PY = "/venv/bin/python"

NOTE = (
    "Trusted base: CPython's ast module; the asyncio execution model M1-M5 of DESIGN.md section 2 for path rules; "
    "protobuf's FileDescriptorProto wire format for the schema rules. The check reads /repo's current working tree on "
    "every run (never imports or executes it); exit 2 + ANALYSIS-ERROR when an anchored construct cannot be located."
)

# property -> (technique, claim text, design_ref)
CLAIMS = {
    "C13": (
        "exhaustive static table comparison (.proto text / descriptor bytes literal / folded Python tables) + syntactic role classification of every message-class load",
        "Decides statically, for the current tree: (R1) id tables from api.proto, from the descriptor literal in api_pb2.py and from "
        "MESSAGE_TYPE_TO_PROTO agree entry by entry, ids unique and contiguous from 1, the dispatcher's own lookup expression selects "
        "the declared class for every id, PROTO_TO_MESSAGE_TYPE is the exact inverse; (R2) .proto text and compiled descriptor agree on "
        "every message, field, enum and id/source option; (R3) every api_pb2 class instantiated in the package (a superset of what can be "
        "sent) is client- or both-originated; (R4) every class used as a subscription/response type is server- or both-originated. "
        "The space is finite and fully enumerated, so for this property the clause set is the statement itself.",
        "DESIGN.md section 5 C13",
    ),
}

CLAIMS["C14"] = (
    "exhaustive static comparison of model enums/dataclasses with the parsed wire schema; pairing derived from converters, tables and annotations",
    "Decides statically, for every model enum and dataclass of the current tree: (R1) each model enum paired with a wire enum (by converter, "
    "by annotated command parameter, or by name) has exactly the wire numbers, no aliases, and wire name = constant prefix + model name; "
    "(R2) each model class paired with a wire message has exactly its field names; (R3) converter kind matches wire field kind and the "
    "shared conversion machinery (convert/convert_list/from_pb/__post_init__/from_dict/to_dict, float-fix guard and digit count) keeps its "
    "shape. These are the table clauses of the property (finite, fully enumerated). Not decided: rounding numerics and value round-trips "
    "over all inputs (runtime values).",
    "DESIGN.md section 5 C14",
)

CLAIMS["C05"] = (
    "interprocedural MUST dataflow (validated-not-closed fact, summaries by fixpoint over the resolved call graph) on a statement CFG; who-may-write sweep; symbolic evaluation of the derived flags; guard extraction",
    "Decides statically under the asyncio execution model M1-M5: single writer of the lifecycle attributes (R1); derived flags equal "
    "their specification for all five states (R2); every non-CLOSED state write is constant, lies behind a raise-unless-state-is-P entry "
    "guard with P strictly earlier, and every exit of a guarded phase advanced the state or passed the closer, so a phase cannot run twice "
    "(R3); at every non-CLOSED state write the connection is known not to be CLOSED since the last primitive suspension point or call "
    "that may close and return (R4) - this enumerates suspension points rather than schedules and so covers same-loop-turn interleavings; "
    "the closer is idempotent and sets CLOSED before anything that can re-enter (R5). Under M1-M5 this clause set is equivalent to the "
    "safety statement of the property.",
    "DESIGN.md section 5 C05",
)

CLAIMS["C07"] = (
    "who-may-load/call sweep, must/may dataflow on the closer's CFG, guard truth table of the callback site",
    "Decides statically: the stop-callback value is loaded and called at exactly one site, in the closer, after CLOSED is set (R1); that "
    "site's guard, as a truth table over {already closed, callback present, was-connected}, is reached exactly - and then on every path - "
    "when the connection was connected, with was-connected snapshotted before the state change (R2); the graceful marker has exactly the "
    "three specified writers, each before anything that can close or write, is never reset, and is the callback's argument (R3). With C05 "
    "(closed is final, closer idempotent) this is the safety part of the statement under M1-M5; that a connected session is eventually "
    "closed (liveness) is not decided.",
    "DESIGN.md section 5 C07",
)
CLAIMS["C08"] = (
    "derived resource inventory + path-sensitive (disjunctive) release analysis of the closer; local-timer pairing with flag tracking; validated-not-closed dataflow at commit/arm/delivery sites; who-may-call for writes",
    "Decides statically under M1-M5: every resource attribute of the connection (timers, socket, helper, futures, waiter set - derived "
    "from the annotations) is released on every path through the closer, helper close() closes and drops transport/writer (R1); every "
    "locally bound timer handle is cancelled or has fired on every exit (R2); nothing is committed to the object and no keep-alive timer "
    "is armed unless the connection is known not closed since the last suspension (R3); awaited futures are registered with what the "
    "closer resolves before the first suspension (R4); transport writes only behind the handshake-complete gate, raw writer access only "
    "in the frame helpers (R5); the dispatcher looks up subscribers only when the connection is known not closed, for both receive loops "
    "(R6). Necessary conditions of the property in package code; leaks inside asyncio/OS objects are not decided.",
    "DESIGN.md section 5 C08",
)

CLAIMS["C09"] = (
    "classification of every await by bounding construct (fixpoint over the call graph) with constant folding of the bounds; exception-class table rules on the CFG; single guarded writer of the fatal cause",
    "Decides statically: every await of connection.py/client.py is bounded by a recognised construct whose constant folds to the documented "
    "value for its role (resolve 30, TCP 60 per attempt with a shrinking address list, handshake 30, hello/login 30, disconnect 5+10, request "
    "= caller's timeout, default 10) (R1); the connect phases catch everything and re-raise the wrapper's result, every return of which is an "
    "APIConnectionError subclass, timeouts/OS errors map to the documented classes, waiters are failed with wrapped causes, write failures "
    "are reported then re-raised as SocketClosedAPIError (R2); the fatal cause has one writer guarded by 'unset' and is recorded before the "
    "closer runs (R3). Necessary structure of the property; actual completion instants and hangs inside third-party awaitables are not decided.",
    "DESIGN.md section 5 C09",
)
CLAIMS["C10"] = (
    "who-may-write + guard truth tables on the tick/dispatcher CFGs + symbolic (linear) evaluation of the deadline expressions",
    "Decides statically: the pending-ping flag protocol (three writers; every successfully parsed message of any type clears the flag and "
    "cancels an armed pong timer before delivery; ping sent iff the flag is set) (R1); the pong deadline is armed iff a ping is sent while "
    "none is pending, equals now + 4.5*keepalive symbolically, and its expiry reports PingFailedAPIError through the fatal path (R2); every "
    "normal exit of the tick re-arms at now + keepalive, keepalive starts only after hello/login, default interval 20 s (R3). The detection "
    "window (5.5K, 6.5K] follows from these over time and is not decided as a number.",
    "DESIGN.md section 5 C10",
)

CLAIMS["C11"] = (
    "may/must dataflow for send-then-register atomicity; disjunctive path analysis of release on every exit; guard truth tables of the collector and the timeout callback",
    "Decides statically: no suspension point between a send and the completion of the handler and waiter registrations (R1); on every exit of "
    "the request function the same (callback, types) is unregistered and the same future discarded, removal idempotent (R2); the collector "
    "appends iff pending and accepted and resolves iff pending and stop, with future/list/predicates bound to the right slots and the list "
    "returned (R3); the timeout callback acts only on a pending future (R4). Local preconditions of the property; exact completion instants "
    "and non-interference over all interleavings as behaviour are not decided.",
    "DESIGN.md section 5 C11",
)
CLAIMS["C12"] = (
    "CFG walks of the dispatcher with the wire type evaluated concretely at every boundary point (finite partition by the compared constants); effect-freeness of the unknown-type path; handler/response table extraction",
    "Decides statically: delivery iterates a fresh copy of the handler set of the parsed message's class and calls each element once with that "
    "message (R1); for every representative type number the registry index is never negative and undefined ids end on the unknown-type path "
    "(R2), on which only logging executes (R3); other lookup/parse failures are caught, reported as ProtocolAPIError through the fatal path and "
    "never delivered (R4); the three peer requests have handlers that send the same-stem response, disconnect marks-replies-closes, and "
    "registration precedes the hello (R5). Payload-value behaviour of protobuf parsing is not decided.",
    "DESIGN.md section 5 C12",
)

CLAIMS["C19"] = (
    "call-site classification (receiver provenance through the authenticated gate, may-dataflow for suspension in between); gate truth table; who-may-write + disjunctive path analysis of APIClient._connection",
    "Decides statically: every public APIClient call site that reaches a sending/registering connection API takes its receiver from the "
    "authenticated gate with no suspension in between; non-public closures may use self._connection only behind an is-not-None test (R1); "
    "the gate returns iff a connection is installed and connected and otherwise raises an APIConnectionError, without effects (R2); "
    "_connection is installed iff none is installed (refusal is effect-free), cleared by the stop hook given to the connection (before "
    "user code), on every exceptional exit of a connect phase, and after disconnect() closed it unless already replaced; no other writer "
    "(R3). With C07/C08 these are the structural conditions of the statement; multi-session histories as behaviour are not decided.",
    "DESIGN.md section 5 C19",
)

CLAIMS["C01"] = (
    "disjunctive path analysis of the receive-loop iteration (event pairing) + sentinel-edge walks; who-may-write sweep; abstract interpretation of the buffer primitives over a linear-expression domain (normalised-form comparison, no solver); sibling agreement of codec constants",
    "Decides statically: every iteration of the plaintext receive loop is reset-read-return with nothing consumed/delivered, or "
    "reset-read-consume-deliver back to the loop head, reads before the consume, the chunk appended once before the loop, and each read's "
    "'bytes missing' sentinel leaves the function before its value is used (R1); buffer/length/cursor are written only by the frame-helper "
    "classes (R2); per path, append keeps the tail and grows the length by len(data), consume drops exactly the cursor prefix, read returns "
    "None exactly when N < P+k (strict) without side effect and otherwise buffer[P:P+k] with P advanced by k, the varint reader indexes only "
    "below N and advances one byte at a time (R3); reader and writer varint constants agree (R4). Shape conditions without which reassembly "
    "cannot be lossless; equality of delivered and sent sequences over all byte streams and segmentations is not decided.",
    "DESIGN.md section 5 C01",
)
CLAIMS["C02"] = (
    "disjunctive write counting; role classification of normalised append sequences (locals inlined); writer-vs-reader agreement of byte-role expressions; must/ordering dataflow for the nonce",
    "Decides statically: one transport write per batch on every path (R1); plaintext frame layout zero byte, varint(len(payload)), "
    "varint(type), payload with type and payload from the same packet, empty-separator join, minimal varint writer (R2); Noise inner and outer "
    "header byte roles (big-endian type/length, marker 0x01, be16 ciphertext length) and their agreement with what the reader reconstructs "
    "(R3); nonce used as is, incremented exactly once afterwards on every normal path, not on failure, single writer, one encrypt per packet, "
    "PACK_NONCE layout (R4); each packet is (id of type(m), serialised m) over the caller's messages in order (R5). Byte-exact decodability "
    "for all payload values is not decided.",
    "DESIGN.md section 5 C02",
)

CLAIMS["C03"] = (
    "typestate extraction (dispatch arms + every state write) compared with the specified automaton; must-dataflow for readiness ordering; loop-iteration pairing; truth table of the hello guards; constant/role extraction of the protocol setup",
    "Decides statically: the Noise helper's extracted automaton equals HELLO->HANDSHAKE->READY with CLOSED only in close(), READY only after "
    "read_message returned (R1); delivery only through the READY arm, readiness signalled only on the HANDSHAKE->READY path after both "
    "ciphers exist, handshake-complete only after the readiness wait returned (R2); per-iteration pairing and sentinel discipline of the "
    "receive loop (R3); bad-name iff name announced, expected set and different (carrying the received name), HANDSHAKE iff hello non-empty, "
    "protocol byte 0x01 and name acceptable (R4); pattern name, initiator role, PSK, prologue, hello bytes, first-frame layout and setup "
    "order (R5). That the handshake succeeds against a conformant responder for all keys and chunkings (cryptography, runtime) is not decided.",
    "DESIGN.md section 5 C03",
)
CLAIMS["C04"] = (
    "guard-located deviation-site table (error class per site), fail-closed path walks from every detection site, must-dataflow for report/close order, nonce ordering analysis",
    "Decides statically: each of the 13 deviation sites, located by its guard, constructs the specified error class (bad name carrying the "
    "received name, MAC failure vs other handshake error, InvalidTag and reset-in-HELLO mappings keeping their cause, plaintext 0x01 vs other, "
    "key not base64 / not 32 bytes) (R1); from every detection site the handler leaves without state change, readiness, further reads or "
    "delivery, errors are reported before the close and to both the readiness wait and the connection, authentication failures are never "
    "swallowed, frames after close are never delivered (R2); the key is validated in __init__ before any write (R3); the decrypt nonce "
    "advances only after success (R4). 'Delivered messages are a byte-exact prefix' rests on AEAD authenticity and is not decided.",
    "DESIGN.md section 5 C04",
)

CLAIMS["C06"] = (
    "truth tables over the login flag and the verdict guards; exhaustive evaluation of the version comparison over 0..300; must-pass-through dataflow; exception-class extraction",
    "Decides statically: the hello (and iff login the connect) request is sent, all expected responses are collected up to the last expected "
    "type, the hello response always reaches the version/name verdict and iff login the next one the password verdict, in arrival order, "
    "before CONNECTED (R1); the version guard rejects exactly major > 2 (evaluated for every major 0..300), the name guard rejects iff "
    "announced, expected configured and different, the password guard iff invalid_password (R2); error classes APIConnectionError / "
    "BadNameAPIError carrying the received name / InvalidAuthAPIError (R3); verdict failures propagate and every exceptional exit of the "
    "phase passes the closer (R4). Behaviour under response order and chunking is not decided.",
    "DESIGN.md section 5 C06",
)
CLAIMS["C15"] = (
    "schema-driven lint: every write to a command request collected with its normalised guard stack and compared with the wire schema's fields and has_<field> flags; version-threshold tables",
    "Decides statically for all 19 command methods and 42 presence flags: required parameters written unguarded to the same-named field (R1); "
    "every optional parameter guarded by `is not None` (never truthiness) writing only its own field with its own value (R2); has_<field> "
    "set True under the same guard and every flag of the message written (R3); nothing else written (R4); durations int(round(p*1000)) "
    "(R5); legacy encodings with their exact version thresholds and mappings, service-argument maps consistent with the schema (R6); "
    "exactly one send per normal path (R7). Float-to-int rounding arithmetic for all values is not decided.",
    "DESIGN.md section 5 C15",
)

CLAIMS["C16"] = (
    "guard/return truth tables of every BLE filter and callback; folding of subscribed type tuples; must-dataflow for the timeout order; disjunctive exit analysis with flag tracking",
    "Decides statically: every BLE filter/callback acts (or returns True) exactly when its own bound address - and handle, except for "
    "connection-state messages - equal the message's fields (R1); handle-scoped waits, the service listing and device requests subscribe "
    "their response types plus GATT error and connection state, filter on their own address/handle and raise the specified errors before "
    "returning (R2); on connect timeout: unsubscribe, then disconnect for the same address, then TimeoutAPIError (R3); every failing exit of "
    "connect/start_notify has called the remover, the success exit returns it (R4). Isolation as behaviour over all interleavings is not decided.",
    "DESIGN.md section 5 C16",
)
CLAIMS["C17"] = (
    "set equality of registered vs handled types (folded tables/annotations); disjunctive counting of user-callback calls per path; key-discipline dataflow on the camera stream dict; truth tables of the voice-assistant answers",
    "Decides statically: for every subscribe_* the registered type set equals what its wrapper handles (R1); exactly one user callback per "
    "handled path, zero on the incomplete-image path, value built from that message (R2); all camera stream accesses keyed by the message's "
    "key, chunk appended before the done test, joined data of that key emitted with that key and the entry deleted exactly when done, fresh "
    "dict per subscription (R3); voice-assistant start answered with port / error by its truth table, every remover retained and called by "
    "the returned unsubscribe which also cancels a pending start, other subscribe_* return the remover of their own registration (R4). "
    "Arrival-order behaviour over all streams is not decided.",
    "DESIGN.md section 5 C17",
)

CLAIMS["C18"] = (
    "role location + guard truth tables (attempt, starter, mDNS filter, scheduler); lock-context analysis (lexical regions + lock-held fixpoint over call sites); MUST dataflow of a lock-stable not-stopped fact; constant folding of the back-off expression over n=1..200; disjunctive outcome/report counting",
    "Decides statically on reconnect_logic.py: the client's connect phases are called only from the attempt function, whose single call site is "
    "under the manager lock and reached iff DISCONNECTED and not stopped with no suspension since the test; the starter creates an attempt task "
    "iff none runs or the running one is still CONNECTING (then cancel + reset first) and never cancels a handshaking/connected attempt (R1); "
    "state, stop flag and record-accept flag have exactly their specified writers, locked setter only under the lock, accept flag == state in "
    "{DISCONNECTED, CONNECTING} (R2); the retry delay, evaluated by the checker for every failure count 1..200, equals min(round(1.8^n), 60), "
    "auth/encryption errors (exactly three classes) give 60 s, success/start reset the count, expected disconnect 5.0 s, unexpected 0, mDNS 0, "
    "zero delay starts at once, positive delay replaces the single timer at now+delay (R3); stop() under the lock sets the flag, cancels timer "
    "and task, removes the listener and sets DISCONNECTED without suspending, then closes zeroconf; every site that starts an attempt, "
    "schedules one or starts listening holds a valid not-stopped fact; the mDNS filter triggers iff accepting, not stopped and PTR-alias/A-name "
    "match, once per batch (R4); on_connect only after both phases + READY under the lock, on_disconnect only in the stop hook under the lock, "
    "every failed attempt reported once with its error (R5). Retry instants in virtual time and alternation over all histories as behaviour "
    "are not decided.",
    "DESIGN.md section 5 C18",
)

CLAIMS["C20"] = (
    "per-host decision-tree truth tables from the loop-body head (hoisted conditions followed); list-role dataflow (per-host vs accumulated result); exit truth table; who-may-close sweep with receiver types; atomic-pair MAY dataflow of instance/ownership-flag writes; checker-side evaluation of the two name predicates",
    "Decides statically: per configured host the mDNS lookup is reached iff the host is a bare name or ends in .local, the literal parse iff it "
    "is not (and performs no lookup), the OS resolver iff nothing was found for THIS host (the tested list is re-created per iteration and "
    "receives all three resolvers' results); only ResolveAPIError from mDNS is absorbed; per-host results are appended in input order, "
    "append-only; the function returns iff something resolved, else raises the remembered mDNS error or ResolveAPIError (R1); mDNS collects "
    "IPv6 before IPv4 into the list it returns with the documented service/server names, address conversion keeps family and sockaddr class "
    "in agreement, strips %scope and keeps a numeric scope id, OSError becomes APIConnectionError (R2); the only close of a zeroconf instance "
    "in the library proper is the manager's, reached iff it created the instance; the ownership flag becomes true only where the manager "
    "constructs AsyncZeroconf() itself; instance and flag always change together with no suspension point in between; the service-info helper "
    "snapshots 'had an instance' before requesting one and closes through the manager on every exit when it had none (R3); "
    "host_is_name_part / address_is_local agree with their specification on a table of addresses (R4). Resolver outcomes for all inputs "
    "and manager histories as behaviour are not decided.",
    "DESIGN.md section 5 C20",
)

# clauses added during the build (DESIGN.md section 10.1), appended to the claim text
ADDENDA = {
    "C01": "Added: only the sentinel stops the parse (every real value incl. type 0 / empty payload goes on to the consume); no state-dependent return before the loop and none right after a consume; the length grows by the number of BYTES of the chunk (len() of a chunk not proved to be `bytes` is a different symbol). Reader layout: the type handed to the connection is bound only by a varint read, the payload only by _read(<length>) or the empty payload, the length only by a varint read, in wire order; for reads after the framing marker no real value (samples up to 2^64) is a reason to give up. Type and payload handed over were bound in the same loop iteration; guards on later reads that the checker cannot fold are rejected.",
    "C02": "Added: the bytes handed to the transport write are never rebound before it. Every store to the writer slot is the transport's write or None. Outside the frame helpers exactly one call site reaches EncryptCipher.encrypt; a batch walked more than once is declared re-iterable.",
    "C04": "Added: in the plaintext loop the framing marker is examined before any give-up return. A Noise frame is consumed from the buffer only after its handler returned (a frame failing authentication stays at the head and fails again until connection_lost arrives), unless every authenticating call is handled locally. No normal exit of the READY handler avoids the decrypt; no function on the report/close path writes the receive buffer (the plaintext helper stays fail-closed through the rejected byte at its head). Reporting an error cannot raise by itself (expression totality of the helpers' error path). A handler that can catch InvalidTag keeps its mapping to the invalid-key error. (R4) the ephemeral key of a session is the Noise library's own: the package overrides no key generation, supplies no key pair and registers no key agreement in its backend.",
    "C05": "Added (R3): the one-shot guard already refuses a second caller when the phase first suspends (state left, or an in-progress marker tested by the guard is set) - no two overlapping attempts on one object. (R6) disconnect(), force_disconnect() and report_fatal_error() reach the closer on every normal path; a transport write error reaches send_messages' reporting handler as a class it catches (nothing below converts or swallows it). The set of visible states is exactly the five of the statement.",
    "C06": "Added (R2): the version guard is evaluated over major 0..300 x minor pairs with APIVersion as the ordered pair its dataclass comparison uses. (R1) after the responses arrived nothing ends the exchange before each verdict; (R5) the parameter object the verdicts read is the client's live one - bound once on each side, handed over by reference, updated in place by the expected_name setter, not frozen. APIClient.connect / finish_connection pass the caller's login flag through unchanged. The login flag is never rebound on its way to the exchange.",
    "C07": "Added: every future completed by the closer and its callees is tested not-done first (an InvalidStateError after CLOSED would lose the callback); the client's hook invokes the callback bound by value from this start_connection() call (or an attribute every call overwrites unconditionally). The client's hook passes the connection's reason to the user's callback unchanged. A stop callback remembered in client state is stored only once start_connection() can no longer be refused. The task running the user's stop coroutine is created on the running loop. (R3) a future that disconnect() may await in front of the graceful marker is forgotten on every path of whoever completes it.",
    "C09": "Added (R3): a wrong framing marker is diagnosed before any give-up return of the plaintext loop; in the closer the connect-phase interrupts are triggered before the frame helper is closed (FIFO wake-up order decides which error the connecting task reports). Building a connection error cannot fail (no raising lookup in the error constructors and the helpers used while constructing one); write-path rule shared with C05.R6. The interruption sentinel stays outside the connection-error hierarchy. (R1) awaits of callback-completed futures are bounded by timers that only act on a pending future, never by asyncio.timeout()/wait_for(). (R2) clean-up blocks of a try that awaits reach through Optional attributes only under a test of them; definite assignment of locals in every function of the package (one confirmed exemption); no handler naming a connection-error class replaces the caught error by a newly built one.",
    "C10": "Added (R2): a cancelled pong deadline is reset to None on the dispatcher path, so the `is None` arm guard fires again. (R1) on an open connection the dispatcher has no normal exit that avoids the parse (no per-type fast path skipping the liveness bookkeeping); (R3) a time handed to the scheduler through a local is read after the last suspension point.",
    "C11": "Added (R2): the request's timeout timer is cancelled or has fired on every exit. The registered response callback has exactly one binding (no second, cheaper collector for some argument combination). No bare future completion is registered as a message handler.",
    "C14": "Added (R3): from_dict keeps a field iff its key is present (or missing keys are not ignored) - never depending on the stored value. The float conversion is not memoised; model conversions never choose between dictionary entries by truthiness. No two fields share the metadata mapping the converter is recorded in. The fields of a model are enumerated by dataclasses.fields of that very class (directly or under a cache keyed by the class object).",
    "C19": "Added (R3): a failing connect phase clears the installed connection only while it is still the phase's own. Nothing between closing the connection and forgetting it in APIClient.disconnect can raise by itself. With a connection installed every path of disconnect() closes it. Nothing after the guarded phase of start_connection / finish_connection can raise by itself.",
    "C08": "Added: the 'timer already fired' exemption of R2 holds only for a future created in the same function. (R7) package callers await the graceful close directly, or its closer sits in a finally covering the awaits. (R8) every library call on the release path is one of a frozen list of non-raising release operations (the sequence cannot be cut short). (R8) no expression in the closer or before it in report_fatal_error can raise by itself; (R9) a fresh resource is registered for the closer before anything else is done with it.",
    "C13": "Added: the message parsed is an instance of the class looked up for this very packet; the folded value of every registration call's type set (comprehensions over the registry included) contains only server- or both-originated types.",
    "C15": "Added: no parameter of a command method is rebound before its presence guard. The caller's value is written into every service argument on every path before it is appended.",
    "C20": "Added: every failure of mDNS start-up or request surfaces as ResolveAPIError - the only class the decision tree absorbs before falling back to the OS resolver (handler chain followed into the manager). The instance/flag pair analysis also rejects a half-written pair at exceptional exits; constant regular expressions in the address classifiers are evaluated by the checker over an extended address table. The service-info construction is inside the error conversion and the created-instance clean-up. One pass over the configured addresses; an instance is requested only in the places that close it again.",
    "C17": "Added (R4): the unsubscribe function is located by role and sees the pending start task at call time (a slot rebound by start requests is not bound by value). Buffered camera chunks are only dropped with their completed image; the start handler's result is never replaced before the answer; only the unsubscribe function cancels a start task.",
    "C12": "Added: a range-guarded registry lookup outside the try is judged per id. A parsed message always reaches the subscriber lookup.",
    "C16": "Added: the Bluetooth message callbacks contain no expression that can raise by itself. Bluetooth operations are not serialised behind a lock / semaphore / event. Definite assignment of locals in every Bluetooth function of the client (no path ends in UnboundLocalError instead of its outcome).",
    "C18": "Added: listen / unlisten take the zeroconf instance from the manager at the call; the failure handler has no raise / early return of its own. (R3) no handler naming a connection-error class replaces the caught error by a newly built one (the back-off class depends on the subclass reaching the manager).",
}

UNDER_CONSTRUCTION = "rule set not built yet in this round (see DESIGN.md section 5 for the planned static rules)"

NOT_APPLICABLE = {}


def main() -> int:
    checks = []
    for pid in sorted(CLAIMS):
        tech, text, ref = CLAIMS[pid]
        checks.append(
            {
                "property_id": pid,
                "quick_cmd": f"{PY} -m sa check {pid} --tier quick",
                "thorough_cmd": f"{PY} -m sa check {pid} --tier thorough",
                "evidence_file": f"/verif/evidence/{pid}.json",
                "replay_cmd_template": f"{PY} -m sa replay {{path}}",
                "engine": "sa",
                "level_claimed": {"category": "other", "text": text + (" " + ADDENDA[pid] if pid in ADDENDA else ""), "design_ref": ref + (" and section 10.1" if pid in ADDENDA else "")},
                "level_note": NOTE,
                "technique": tech,
            }
        )
    na = []
    for n in range(1, 21):
        pid = f"C{n:02d}"
        if pid in CLAIMS:
            continue
        na.append({"property_id": pid, "reason": NOT_APPLICABLE.get(pid, UNDER_CONSTRUCTION)})
    manifest = {
        "version": 1,
        "setup_cmd": f"{PY} -m compileall -q sa",
        "hooks": {
            "guard": "ESPHOME_AIOESPHOMEAPI_VERIF",
            "enable": "none needed: static analysis instruments nothing; the guard name is reserved and unused",
            "baseline_off_cmd": "cd /repo && /venv/bin/python -m pytest -ra -q -p no:cacheprovider --timeout=900 --continue-on-collection-errors",
            "source_commits": [],
            "add_only": True,
        },
        "engines": [
            {
                "name": "sa",
                "path": "/verif/sa",
                "serves_properties": sorted(CLAIMS),
                "kind_free_text": "repository-specific static analysis: ast-based loader with a canonicalising normaliser (renames undone against "
                "a baseline symbol inventory, new helpers inlined, walrus/alias/temporary/comprehension canonical forms), .proto reader, "
                "descriptor-literal decoder, constant evaluator, annotation-based callee resolver, statement CFG + monotone and disjunctive "
                "dataflow, guard truth tables, linear-expression abstract interpreter, may-raise analysis of expressions, definite assignment",
            }
        ],
        "checks": checks,
        "not_applicable": na,
        "notes": "All checks are static (family: static analysis). Known findings: /verif/known_findings.json. Self-test of the checker: "
        f"{PY} -m sa.mutants (variants under sa/variants/, independently seeded breaking changes under seeded/, behaviour-preserving refactorings under refactors/); the thorough tier of every check runs its share of them.",
    }
    (VERIF / "MANIFEST.json").write_text(json.dumps(manifest, indent=1) + "\n")
    return 0


if __name__ == "__main__":
    sys.exit(main())
