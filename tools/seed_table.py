#!/usr/bin/env python3
"""Rewrite the seeded-change table in DESIGN.md (between the SEEDED-TABLE markers) from seeded/*/meta.json."""
import json
import re
from pathlib import Path

V = Path(__file__).resolve().parent.parent
rows = []
for m in sorted((V / "seeded").glob("*/meta.json")):
    d = json.loads(m.read_text())
    patch = (m.parent / "patch.diff").read_text()
    files = sorted(set(re.findall(r"^\+\+\+ b/aioesphomeapi/(\S+)", patch, re.M)))
    notes = d.get("notes", "")
    # first rule line reported by the property's own check (or by any check)
    rep = d.get("reports", {})
    own = rep.get(d["property"]) or next(iter(rep.values()), [])
    rule = ""
    for ln in own:
        mm = re.search(r"(C\d\d\.R\d[\w.-]*): (.{0,90})", ln)
        if mm:
            rule = f"{mm.group(1)} – {mm.group(2).strip()}"
            break
    rows.append((d["seed"], d["property"], ", ".join(f.replace("_frame_helper/", "fh/") for f in files if f.endswith(".py")), ", ".join(d.get("checks_that_fire", [])) or "—", rule.replace("|", "/")))
out = ["| seed | property | files touched | checks that report it | first report of the property's own check |", "|---|---|---|---|---|"]
out += [f"| {a} | {b} | {c} | {d} | {e} |" for a, b, c, d, e in rows]
caught = sum(1 for r in rows if r[3] != "—")
own = sum(1 for r in rows if r[1] in r[3])
out.append("")
out.append(f"{len(rows)} confirmed changes kept; {caught} reported by at least one check, {own} by the check of the property they were written against.")
text = (V / "DESIGN.md").read_text()
a, b = "<!-- SEEDED-TABLE:BEGIN -->", "<!-- SEEDED-TABLE:END -->"
if a in text:
    text = text[: text.index(a) + len(a)] + "\n" + "\n".join(out) + "\n" + text[text.index(b) :]
    (V / "DESIGN.md").write_text(text)
print("\n".join(out[-3:]))
