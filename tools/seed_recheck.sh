#!/bin/bash
# Re-run the checks (not the confirmation) against every kept seeded change and refresh which checks fire.
# usage: tools/seed_recheck.sh [jobs] [glob]
cd /verif
J=${1:-4}
G=${2:-*}
ls -d seeded/$G | xargs -n1 basename | xargs -P $J -I{} sh -c 'p=$(python3 -c "import json;print(json.load(open(\"seeded/{}/meta.json\"))[\"property\"])"); python3 tools/seed_eval.py {} $p seeded/{} --checks-only --keep 2>&1 | python3 -c "
import json,sys
try:
    r=json.load(sys.stdin); print(r[\"seed\"], \"own=\", r.get(\"caught_by_own_property\"), r.get(\"fired\"), r.get(\"analysis_errors\"))
except Exception as e: print(\"{} PARSE-FAIL\", e)
"'
