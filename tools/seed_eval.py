#!/usr/bin/env python3
"""Confirm a seeded change and run the checks against it.

usage: seed_eval.py <seed-id> <property> <dir with patch.diff, demo_test.py[, notes.md]> [--keep]

Steps (all in a scratch git worktree of /repo under /tmp, removed afterwards):
  1. demo on the unmodified tree           -> must pass
  2. apply patch.diff, run the pinned suite -> must equal the baseline (401 passed, known failure only)
  3. demo on the patched tree              -> must fail
  4. every static check (quick tier) aimed at the patched tree via VERIF_REPO -> which ones report a violation
With --keep the confirmed change is stored as /verif/seeded/<seed-id>/ (patch.diff, demo_test.py, meta.json).
"""
from __future__ import annotations

import json
import os
import re
import shutil
import subprocess
import sys
import tempfile
from concurrent.futures import ThreadPoolExecutor
from pathlib import Path

VERIF = Path(__file__).resolve().parent.parent
PY = "/venv/bin/python"
KNOWN_FAIL = "tests/test_util.py::test_create_eager_task_312"
PROPS = [f"C{n:02d}" for n in range(1, 21)]


def sh(cmd: list[str], cwd: str, env: dict | None = None, timeout: int = 900) -> tuple[int, str]:
    e = dict(os.environ)
    if env:
        e.update(env)
    p = subprocess.run(cmd, cwd=cwd, env=e, capture_output=True, text=True, timeout=timeout)
    return p.returncode, p.stdout + p.stderr


def suite(wt: str) -> tuple[bool, str]:
    rc, out = sh([PY, "-m", "pytest", "-q", "-p", "no:cacheprovider", "-n", "8", "tests"], wt, {"PYTHONPATH": wt})
    tail = out.strip().splitlines()[-1] if out.strip() else ""
    failed = re.findall(r"^FAILED (\S+)", out, re.M)
    m = re.search(r"(\d+) passed", tail)
    ok = bool(m) and int(m.group(1)) == 401 and set(failed) <= {KNOWN_FAIL} and "error" not in tail.lower()
    return ok, tail + (f" failed={failed}" if failed else "")


def demo(wt: str, demo_path: str) -> tuple[int, str]:
    rc, out = sh([PY, "-m", "pytest", "-q", "-p", "no:cacheprovider", "-x", demo_path], wt, {"PYTHONPATH": wt}, timeout=600)
    tail = out.strip().splitlines()[-1] if out.strip() else ""
    return rc, tail


def run_checks(wt: str, props: list[str]) -> dict[str, dict]:
    def one(p: str) -> tuple[str, dict]:
        ev = tempfile.mkdtemp(prefix="sa-ev-")
        try:
            rc, out = sh([PY, "-m", "sa", "check", p, "--tier", "quick"], str(VERIF), {"VERIF_REPO": wt, "VERIF_EVIDENCE_DIR": ev}, timeout=600)
            lines = [l for l in out.splitlines() if "VIOLATION" in l or "ANALYSIS-ERROR" in l]
            reports = [l for l in out.splitlines() if re.search(r" C\d\d\.R\d", l) and "KNOWN-FINDING" not in l][:6]
            return p, {"rc": rc, "lines": lines[:6], "reports": reports}
        finally:
            shutil.rmtree(ev, ignore_errors=True)

    with ThreadPoolExecutor(max_workers=10) as ex:
        return dict(ex.map(one, props))


def main() -> int:
    args = [a for a in sys.argv[1:] if not a.startswith("--")]
    keep = "--keep" in sys.argv
    checks_only = "--checks-only" in sys.argv
    sid, prop, src = args[0], args[1], Path(args[2]).resolve()
    patch = src / "patch.diff"
    demo_src = src / "demo_test.py"
    wt = tempfile.mkdtemp(prefix=f"seedeval-{sid}-", dir="/tmp")
    os.rmdir(wt)
    subprocess.run(["git", "-C", "/repo", "worktree", "add", "--detach", wt, "HEAD"], check=True, capture_output=True)
    res: dict = {"seed": sid, "property": prop}
    try:
        dpath = os.path.join(wt, "seed_demo_test.py")
        shutil.copy(demo_src, dpath)
        for extra in src.glob("*.py"):
            if extra.name != "demo_test.py":
                shutil.copy(extra, os.path.join(wt, extra.name))
        if not checks_only:
            rc0, t0 = demo(wt, dpath)
            res["demo_unpatched"] = {"rc": rc0, "tail": t0}
        rc, out = sh(["git", "apply", str(patch)], wt)
        if rc != 0:
            res["error"] = f"patch does not apply: {out[:300]}"
            print(json.dumps(res, indent=1))
            return 2
        if not checks_only:
            ok, tail = suite(wt)
            res["suite_patched"] = {"same_as_baseline": ok, "tail": tail}
            rc1, t1 = demo(wt, dpath)
            res["demo_patched"] = {"rc": rc1, "tail": t1}
            res["confirmed"] = bool(rc0 == 0 and ok and rc1 != 0)
        os.remove(dpath)
        checks = run_checks(wt, PROPS)
        res["fired"] = sorted(p for p, r in checks.items() if r["rc"] == 1)
        res["analysis_errors"] = sorted(p for p, r in checks.items() if r["rc"] == 2)
        res["reports"] = {p: r["reports"] for p, r in checks.items() if r["rc"] != 0}
        res["caught_by_own_property"] = prop in res["fired"]
    finally:
        subprocess.run(["git", "-C", "/repo", "worktree", "remove", "--force", wt], capture_output=True)
        shutil.rmtree(wt, ignore_errors=True)
    print(json.dumps(res, indent=1))
    if keep and checks_only:
        # refresh which checks fire in an existing, already confirmed record (the change itself is not re-confirmed)
        mp = VERIF / "seeded" / sid / "meta.json"
        if mp.is_file():
            meta = json.loads(mp.read_text())
            meta["checks_that_fire"] = res["fired"]
            meta["caught_by_own_property"] = res["caught_by_own_property"]
            meta["reports"] = res["reports"]
            mp.write_text(json.dumps(meta, indent=1) + "\n")
        return 0
    if keep and res.get("confirmed"):
        dst = VERIF / "seeded" / sid
        dst.mkdir(parents=True, exist_ok=True)
        if dst.resolve() != src:
            shutil.copy(patch, dst / "patch.diff")
            shutil.copy(demo_src, dst / "demo_test.py")
            for extra in src.glob("*.py"):
                if extra.name != "demo_test.py":
                    shutil.copy(extra, dst / extra.name)
        notes = (src / "notes.md").read_text() if (src / "notes.md").is_file() else ""
        if not notes and (dst / "meta.json").is_file():
            notes = json.loads((dst / "meta.json").read_text()).get("notes", "")
        meta = {
            "seed": sid,
            "property": prop,
            "origin": "independent sub-agent given only the property text and a scratch worktree",
            "needs_to_manifest": _needs(notes),
            "confirmed_by": {
                "demo_on_unmodified_tree": res["demo_unpatched"],
                "pinned_suite_with_patch": res["suite_patched"],
                "demo_with_patch": res["demo_patched"],
                "commands": [
                    "git -C /repo worktree add --detach <tmp> HEAD",
                    f"PYTHONPATH=<tmp> {PY} -m pytest -q -p no:cacheprovider -x seed_demo_test.py   (unpatched: pass)",
                    "git apply patch.diff",
                    f"PYTHONPATH=<tmp> {PY} -m pytest -q -p no:cacheprovider -n 8 tests   (same as baseline)",
                    f"PYTHONPATH=<tmp> {PY} -m pytest -q -p no:cacheprovider -x seed_demo_test.py   (patched: fail)",
                    f"VERIF_REPO=<tmp> {PY} -m sa check <each property> --tier quick",
                ],
            },
            "checks_that_fire": res["fired"],
            "caught_by_own_property": res["caught_by_own_property"],
            "reports": res["reports"],
            "notes": notes[:4000],
        }
        (dst / "meta.json").write_text(json.dumps(meta, indent=1) + "\n")
    return 0


def _needs(notes: str) -> str:
    m = re.search(r"(?is)(needed|needs|manifest|trigger)[^\n]*\n(.{0,600})", notes)
    return (m.group(0)[:600] if m else notes[:400]).strip()


if __name__ == "__main__":
    sys.exit(main())
