#!/usr/bin/env python3
"""Run every check against behaviour-preserving changes (false-alarm measurement).

usage: refactor_eval.py <dir with R*.diff> [...]
Each diff is applied to a scratch copy of /repo's package (removed afterwards); every check must exit 0.
"""
from __future__ import annotations

import json
import os
import re
import shutil
import subprocess
import sys
import tempfile
from concurrent.futures import ThreadPoolExecutor
from pathlib import Path

VERIF = Path(__file__).resolve().parent.parent
PY = "/venv/bin/python"
PROPS = [f"C{n:02d}" for n in range(1, 21)]
if os.environ.get("REFACTOR_EVAL_PROPS"):
    # restrict to some checks (e.g. after editing only their rules): REFACTOR_EVAL_PROPS=C01,C16
    PROPS = [p for p in os.environ["REFACTOR_EVAL_PROPS"].split(",") if p]


def one(diff: Path) -> dict:
    tmp = Path(tempfile.mkdtemp(prefix="sa-refac-"))
    try:
        shutil.copytree("/repo/aioesphomeapi", tmp / "aioesphomeapi", ignore=shutil.ignore_patterns("__pycache__", "*.so", "*.pyc"))
        p = subprocess.run(["git", "apply", "--whitespace=nowarn", str(diff)], cwd=str(tmp), capture_output=True, text=True)
        if p.returncode != 0:
            return {"diff": str(diff), "status": "does-not-apply", "why": p.stderr[:200]}
        bad = {}

        def chk(prop: str):
            ev = tempfile.mkdtemp(prefix="sa-ev-")
            try:
                env = dict(os.environ, VERIF_REPO=str(tmp), VERIF_EVIDENCE_DIR=ev)
                q = subprocess.run([PY, "-m", "sa", "check", prop, "--tier", "quick"], cwd=str(VERIF), env=env, capture_output=True, text=True, timeout=600)
                if q.returncode != 0:
                    out = q.stdout + q.stderr
                    return prop, {"rc": q.returncode, "lines": [l[:300] for l in out.splitlines() if re.search(r"C\d\d\.R\d|ANALYSIS-ERROR", l) and "KNOWN-FINDING" not in l][:4]}
                return prop, None
            finally:
                shutil.rmtree(ev, ignore_errors=True)

        # the first check normalises the scratch tree and stores it in the cache; the others load it
        first = chk(PROPS[0])
        if first[1]:
            bad[first[0]] = first[1]
        with ThreadPoolExecutor(max_workers=16) as ex:
            for prop, r in ex.map(chk, PROPS[1:]):
                if r:
                    bad[prop] = r
        return {"diff": str(diff), "status": "FALSE-ALARM" if bad else "silent", "alarms": bad}
    finally:
        shutil.rmtree(tmp, ignore_errors=True)


def main() -> int:
    diffs = []
    for a in sys.argv[1:]:
        d = Path(a)
        diffs += sorted(d.glob("R*.diff")) if d.is_dir() else [d]
    n_bad = 0
    for d in diffs:
        r = one(d)
        if r["status"] != "silent":
            n_bad += 1
        print(json.dumps(r, indent=1) if r["status"] != "silent" else f"{d}: silent")
    print(f"{len(diffs)} refactorings, {n_bad} with an alarm / analysis error / not applicable")
    return 1 if n_bad else 0


if __name__ == "__main__":
    sys.exit(main())
