#!/bin/bash
# Re-confirm every kept seeded change against the current /repo HEAD and refresh its meta.json
# (which checks fire).  usage: tools/seed_refresh.sh [jobs]
cd /verif
J=${1:-4}
ls seeded | xargs -P $J -I{} sh -c 'p=$(python3 -c "import json;print(json.load(open(\"seeded/{}/meta.json\"))[\"property\"])"); python3 tools/seed_eval.py {} $p seeded/{} --keep > /tmp/seedrefresh.{}.json 2>&1; python3 -c "
import json
try:
    r=json.load(open(\"/tmp/seedrefresh.{}.json\"))
    print(r[\"seed\"], \"confirmed=\", r.get(\"confirmed\"), \"own=\", r.get(\"caught_by_own_property\"), r.get(\"fired\"), r.get(\"analysis_errors\"))
except Exception as e:
    print(\"{} PARSE-FAIL\", e)
"; rm -f /tmp/seedrefresh.{}.json'
